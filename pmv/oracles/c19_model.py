"""Reference models for C19 (finite_difference is a faithful, non-destructive derivative check).

Plain numpy, no pyMOTO import.  Three things live here:

* ``Poly`` – a family of maps with *exactly known* Jacobians
      y_o = [Re] ( c_o + sum_j  A_oj x_j + B_oj conj(x_j) + (Q_oj x_j)**2 )
  (flat vectors; B makes the map non-holomorphic, Q makes it non-linear so that a difference
  quotient has a truncation error of order h).  Two independent derivative codes: the transposed
  formula ``backprop_mod`` (used by the harness *module*, i.e. the program handed to
  finite_difference) and explicit Jacobians ``jac`` (used by the *oracle*: forward tangents,
  and the adjoint as a Jacobian contraction).
* ``RefNet`` – a feed-forward graph of such maps on named flat signals with index-selected
  inputs (slices), evaluated forward, in forward-tangent mode and in reverse mode.
* ``judge_stream`` – order-free comparison of the callback stream of finite_difference with the
  expected records (perfect bipartite matching on x0 / analytical / numerical value).
"""
import numpy as np
import scipy.sparse as sps
from scipy.sparse.csgraph import maximum_bipartite_matching

EPS = float(np.finfo(float).eps)


# ------------------------------------------------------------------------------------------ knobs
def knob_seeds(knob, ws):
    """Wrongness acting on the seeds a module looks at ('out2': the second output is ignored)."""
    if knob and knob.get("kind") == "out2" and len(ws) > 1:
        return [ws[0]] + [None] * (len(ws) - 1)
    return ws


def apply_knob(knob, gs, in_cplx):
    """Wrongness acting on the back-propagated values of one module (gs: complex flat vectors)."""
    kind = knob.get("kind", "none") if knob else "none"
    if kind in ("none", "out2"):
        return gs
    out = [np.array(g, dtype=complex) for g in gs]
    if kind == "factor":
        out = [g * knob["f"] for g in out]
    elif kind == "sign":
        out = [-g for g in out]
    elif kind == "entry":
        j, i = knob["j"], knob["i"]
        out[j][i] += knob["delta"] * (1 + 1j if in_cplx[j] else 1)
    elif kind == "imagdrop":
        out = [np.real(g) + 0j if in_cplx[j] else g for j, g in enumerate(out)]
    elif kind == "conj":
        out = [np.conj(g) for g in out]
    else:  # pragma: no cover
        raise KeyError(kind)
    return out


# ------------------------------------------------------------------------------------------ Poly
class Poly:
    def __init__(self, A, B, Q, c, real_out):
        self.A, self.B, self.Q, self.c, self.real_out = A, B, Q, c, list(real_out)
        self.nout, self.nin = len(A), len(A[0])

    def absolute(self):
        """Magnitude model: |A|+|B|, |Q|, |c| – bounds |y|, |J^T w| when fed with magnitudes."""
        A = [[np.abs(self.A[o][j]) + (0 if self.B[o][j] is None else np.abs(self.B[o][j]))
              for j in range(self.nin)] for o in range(self.nout)]
        Q = [[None if self.Q[o][j] is None else np.abs(self.Q[o][j]) for j in range(self.nin)]
             for o in range(self.nout)]
        B = [[None] * self.nin for _ in range(self.nout)]
        return Poly(A, B, Q, [np.abs(c) for c in self.c], [False] * self.nout)

    # -- the program (used by the harness module and by the oracle's plain re-evaluation)
    def forward(self, xs):
        ys = []
        for o in range(self.nout):
            y = self.c[o]
            for j, x in enumerate(xs):
                y = y + self.A[o][j] @ x
                if self.B[o][j] is not None:
                    y = y + self.B[o][j] @ np.conj(x)
                if self.Q[o][j] is not None:
                    y = y + (self.Q[o][j] @ x) ** 2
            ys.append(np.real(y) if self.real_out[o] else y)
        return ys

    def backprop_mod(self, xs, ws):
        """Adjoint by the transposed formula  g_j = sum_o (A+2DQ)^T w + conj(B^T w)."""
        gs = [np.zeros(len(x), dtype=complex) for x in xs]
        for o, w in enumerate(ws):
            if w is None:
                continue
            for j, x in enumerate(xs):
                g = self.A[o][j].T @ w
                if self.B[o][j] is not None:
                    g = g + np.conj(self.B[o][j].T @ w)
                if self.Q[o][j] is not None:
                    Qm = self.Q[o][j]
                    g = g + 2 * (Qm.T @ ((Qm @ x) * w))
                gs[j] = gs[j] + g
        return gs

    # -- the oracle
    def jac(self, xs, o, j):
        """(dy_o/dRe x_j, dy_o/dIm x_j) as explicit matrices."""
        A = self.A[o][j].astype(complex)
        Jr, Ji = A.copy(), 1j * A
        if self.B[o][j] is not None:
            Jr = Jr + self.B[o][j]
            Ji = Ji - 1j * self.B[o][j]
        if self.Q[o][j] is not None:
            Qm = self.Q[o][j]
            d = 2 * (Qm @ xs[j])[:, None] * Qm
            Jr = Jr + d
            Ji = Ji + 1j * d
        if self.real_out[o]:
            Jr, Ji = np.real(Jr) + 0j, np.real(Ji) + 0j
        return Jr, Ji

    def tangent(self, xs, dxs):
        out = []
        for o in range(self.nout):
            t = 0
            for j in range(self.nin):
                if dxs[j] is None:
                    continue
                Jr, Ji = self.jac(xs, o, j)
                t = t + Jr @ np.real(dxs[j]) + Ji @ np.imag(dxs[j])
            out.append(t)
        return out

    def backprop_ref(self, xs, ws):
        """Adjoint in pyMOTO's convention as a Jacobian contraction:
        Re g_i = Re sum_k w_k dy_k/dRe x_i,   Im g_i = Im( sum_k w_k dy_k/dIm x_i / 1j )."""
        gs = [np.zeros(len(x), dtype=complex) for x in xs]
        for o, w in enumerate(ws):
            if w is None:
                continue
            for j in range(self.nin):
                Jr, Ji = self.jac(xs, o, j)
                gs[j] = gs[j] + np.real(w @ Jr) + 1j * np.imag((w @ Ji) / 1j)
        return gs


def make_poly(rng, in_sizes, in_cplx, out_sizes, cplx_coef, quad, conjpart, real_out):
    def mat(m, n, scale=1.0, zeros=0.25):
        M = rng.uniform(0.3, 1.5, (m, n)) * rng.choice([-1.0, 1.0], (m, n)) * scale
        if cplx_coef:
            M = M + 1j * rng.uniform(0.3, 1.5, (m, n)) * rng.choice([-1.0, 1.0], (m, n)) * scale
        if m * n > 1:
            M[rng.random((m, n)) < zeros] = 0.0      # structural zeros in the Jacobian
        return M
    A = [[mat(m, n) for n in in_sizes] for m in out_sizes]
    B = [[mat(m, n, 0.7) if (conjpart and in_cplx[j]) else None for j, n in enumerate(in_sizes)] for m in out_sizes]
    Q = [[mat(m, n, 0.6, 0.4) if (quad and rng.random() < 0.8) else None for n in in_sizes] for m in out_sizes]
    c = [mat(m, 1)[:, 0] for m in out_sizes]
    return Poly(A, B, Q, c, real_out)


# ------------------------------------------------------------------------------------------ RefNet
def flat_index(shape, sl):
    """Flat (C-order) indices into a signal of ``shape`` selected by the index expression ``sl``."""
    n = int(np.prod(shape, dtype=int))
    if sl is None:
        return np.arange(n).reshape(shape)
    return np.asarray(np.arange(n).reshape(shape)[sl])


class RefNet:
    """mods: list of dict(model=Poly, ins=[(name, idx)], outs=[name], knob=dict|None)."""

    def __init__(self, sources, mods, is_cplx):
        self.sources = {k: np.array(v).reshape(-1) for k, v in sources.items()}
        self.mods = mods
        self.is_cplx = dict(is_cplx)     # name -> state is complex-typed

    def absolute(self):
        r = RefNet({k: np.abs(v) for k, v in self.sources.items()},
                   [dict(m, model=m["model"].absolute(), knob=None) for m in self.mods], self.is_cplx)
        return r

    def forward(self, base=None, override=None, cut=()):
        v = {k: a.copy() for k, a in (self.sources if base is None else base).items()}
        if override is not None:
            name, fi, val = override
            if np.iscomplexobj(val) and not np.iscomplexobj(v[name]):
                v[name] = v[name].astype(complex)
            v[name][fi] = val
        for m in self.mods:
            xs = [v[n][idx.reshape(-1)] for n, idx in m["ins"]]
            ys = m["model"].forward(xs)
            for n, y in zip(m["outs"], ys):
                if n in cut:
                    continue
                v[n] = np.array(y).reshape(-1)
        return v

    def tangent(self, vals, name, fi, direction, cut=()):
        """d(all signals)/d(Re or Im of entry fi of signal `name`), that signal held independent."""
        d = {name: np.zeros(len(vals[name]), dtype=complex)}
        d[name][fi] = direction
        for m in self.mods:
            dxs = [d[n][idx.reshape(-1)] if n in d else None for n, idx in m["ins"]]
            if all(t is None for t in dxs):
                continue
            xs = [vals[n][idx.reshape(-1)] for n, idx in m["ins"]]
            ts = m["model"].tangent(xs, dxs)
            for n, t in zip(m["outs"], ts):
                if n in cut or n == name:
                    continue
                d[n] = np.asarray(t, dtype=complex).reshape(-1)
        return d

    def reverse(self, vals, seeds):
        """Back-propagation of {name: W} through the modules' (possibly wrong) adjoints; mirrors the
        framework's rule that a module none of whose outputs carries a sensitivity is not called."""
        sens = {n: np.array(W, dtype=complex) for n, W in seeds.items()}
        for m in reversed(self.mods):
            ws = [sens.get(n) for n in m["outs"]]
            if all(w is None for w in ws):
                continue
            xs = [vals[n][idx.reshape(-1)] for n, idx in m["ins"]]
            in_c = [self.is_cplx[n] for n, _ in m["ins"]]
            gs = m["model"].backprop_ref(xs, knob_seeds(m.get("knob"), ws))
            gs = apply_knob(m.get("knob"), gs, in_c)
            for (n, idx), g, c in zip(m["ins"], gs, in_c):
                if not c:
                    g = np.real(g)
                if n not in sens:
                    sens[n] = np.zeros(len(vals[n]), dtype=complex)
                sens[n][idx.reshape(-1)] += g
        return sens


# ------------------------------------------------------------------------------------------ records
def contract(W, dy, direction):
    """Number finite_difference should report for the perturbation direction (1 or 1j)."""
    s = np.sum(W * dy)
    return float(np.real(s)) if direction == 1 else float(np.imag(s / 1j))


def expected_records(net, fromlist, tolist, Ws, dx, relative_dx, kz, kconst, check_model=True, actual=None):
    """fromlist: [(name, idx)], tolist: [(name, idx)], Ws: per output full-size flat seed.
    Returns (records, info).  One record per perturbable entry x direction x output."""
    vals = net.forward()
    anet = net.absolute()
    # magnitudes are taken at |x| + (largest step) so that they also bound the perturbed evaluations
    xmax = max([1.0] + [float(np.max(np.abs(vals[n][idx.reshape(-1)]))) for n, idx in fromlist if idx.size])
    hmax = dx * (xmax if relative_dx else 1.0)
    anet.sources = {k: v + hmax for k, v in anet.sources.items()}
    mag = anet.forward()
    cutmid = {n for n, _ in fromlist if n not in anet.sources}
    if cutmid:
        for n in cutmid:
            mag[n] = mag[n] + hmax
        mag = anet.forward(base=mag, cut=cutmid)
    cut = {n for n, _ in fromlist}
    sens = [net.reverse(vals, {n: W}) for (n, _), W in zip(tolist, Ws)]
    smag = [anet.reverse(mag, {n: np.abs(W)}) for (n, _), W in zip(tolist, Ws)]
    kfac = 1.0
    for m in net.mods:
        k = m.get("knob") or {}
        if k.get("kind") == "factor":
            kfac *= max(1.0, abs(k["f"]))
    # rounding scale of  sum W*(y(x+h)-y(x))
    rscale = [float(np.sum(np.abs(W) * mag[n])) for (n, _), W in zip(tolist, Ws)]
    recs = []
    selfcheck = 0.0
    nchecked = 0
    for f, (name, idx) in enumerate(fromlist):
        cplx = bool(net.is_cplx[name])
        for e, fi in enumerate(idx.reshape(-1)):
            fi = int(fi)
            x0 = vals[name][fi]
            if actual is not None and name in actual:
                # an intermediate signal: the entry value is whatever the upstream modules really produced
                # (equal to the reference value up to the last bits; used for the zero test, the step and the key)
                x0 = actual[name][fi]
            if kz and x0 == 0:
                continue
            h = dx * abs(x0) if (relative_dx and abs(x0) != 0) else dx
            for direction in ([1, 1j] if cplx else [1]):
                tang = net.tangent(vals, name, fi, direction, cut)
                vp = net.forward(vals, (name, fi, x0 + h * direction), cut)
                vm = net.forward(vals, (name, fi, x0 - h * direction), cut)
                check_now = check_model and nchecked < 24
                if check_now:
                    nchecked += 1
                    s = 1e-3 * max(1.0, abs(x0))
                    v5 = [net.forward(vals, (name, fi, x0 + k * s * direction), cut) for k in (-2, -1, 1, 2)]
                for o, ((tn, tidx), W) in enumerate(zip(tolist, Ws)):
                    D = contract(W, tang[tn], direction) if tn in tang else 0.0
                    qp = contract(W, (vp[tn] - vals[tn]) / h, direction)
                    qm = contract(W, (vm[tn] - vals[tn]) / (-h), direction)
                    rnd = kconst * EPS * rscale[o] / h
                    allow = 2 * max(abs(qp - D), abs(qm - D)) + rnd
                    g = sens[o].get(name)
                    gm = smag[o].get(name)
                    an = 0.0 if g is None else float(np.real(g[fi]) if direction == 1 else np.imag(g[fi]))
                    tol_an = 1e-12 * ((0.0 if gm is None else float(np.real(gm[fi]))) * kfac + abs(an)) + 1e-300
                    if check_now:
                        d5 = contract(W, (v5[0][tn] - 8 * v5[1][tn] + 8 * v5[2][tn] - v5[3][tn]) / (12 * s),
                                      direction)
                        selfcheck = max(selfcheck, abs(d5 - D) / max(rscale[o], 1e-300))
                    recs.append({"inp": f, "entry": e, "flat": fi, "dir": "re" if direction == 1 else "im", "out": o,
                                 "x0": complex(x0), "an": an, "tol_an": tol_an, "fd": D, "allow": allow,
                                 "rnd": rnd, "h": h, "scale": rscale[o]})
    return recs, {"selfcheck": selfcheck, "vals": vals}


# ------------------------------------------------------------------------------------------ stream judge
def x0key(x0):
    z = complex(np.asarray(x0).reshape(-1)[0]) if not isinstance(x0, (int, float, complex)) else complex(x0)
    return (float(z.real).hex(), float(z.imag).hex())


def _perfect(adj, n, m):
    if n != m:
        return False, None
    if n == 0:
        return True, np.zeros(0, dtype=int)
    g = sps.csr_matrix(adj.astype(np.int8))
    match = maximum_bipartite_matching(g, perm_type="column")
    return bool(np.all(match >= 0)), match


def judge_stream(reports, recs):
    """reports: [(x0, an, fd)] as handed to test_fn;  recs: expected records.
    Returns (mechanism|None, witness, stats)."""
    n, m = len(reports), len(recs)
    rk = [x0key(r[0]) for r in reports]
    ek = [x0key(e["x0"]) for e in recs]
    ran = np.array([float(np.real(r[1])) for r in reports], dtype=float).reshape(n)
    rfd = np.array([float(np.real(r[2])) for r in reports], dtype=float).reshape(n)
    ean = np.array([e["an"] for e in recs], dtype=float).reshape(m)
    etl = np.array([e["tol_an"] for e in recs], dtype=float).reshape(m)
    efd = np.array([e["fd"] for e in recs], dtype=float).reshape(m)
    eal = np.array([e["allow"] for e in recs], dtype=float).reshape(m)
    stats = {"reports": n, "expected": m, "canonical": False}
    with np.errstate(all="ignore"):
        if n == m and rk == ek and np.all(np.abs(ran - ean) <= etl) and np.all(np.abs(rfd - efd) <= eal):
            stats["canonical"] = True
            stats["assign"] = list(range(n))
            return None, {}, stats
        # ---- which entries were reported how often
        from collections import Counter
        cr, ce = Counter(rk), Counter(ek)
        for k in cr:
            if k not in ce:
                i = rk.index(k)
                return "reports/x0-is-not-a-perturbable-entry", {"x0": complex(np.asarray(reports[i][0]).reshape(-1)[0]),
                                                                  "report_index": i, "reports": n, "expected": m}, stats
        for k in ce:
            if cr.get(k, 0) < ce[k]:
                j = ek.index(k)
                e = recs[j]
                miss = [x for x in recs if x0key(x["x0"]) == k]
                dirs = Counter(x["dir"] for x in miss)
                w = {"x0": e["x0"], "input": e["inp"], "entry": e["entry"], "reported": cr.get(k, 0), "expected": ce[k],
                     "reports": n, "expected_total": m}
                if cr.get(k, 0) == 0:
                    return ("reports/zero-entry-skipped-although-keep_zero_structure-is-off" if e["x0"] == 0
                            else "reports/perturbable-entry-skipped"), w, stats
                if dirs["im"] and cr.get(k, 0) * 2 == ce[k]:
                    return "reports/one-direction-of-complex-entry-missing", w, stats
                return "reports/entry-reported-too-few-times", w, stats
        for k in cr:
            if cr[k] > ce[k]:
                j = ek.index(k)
                e = recs[j]
                return "reports/entry-reported-too-often", {"x0": e["x0"], "input": e["inp"], "entry": e["entry"],
                                                            "reported": cr[k], "expected": ce[k]}, stats
        # ---- same multiset of entries: find an assignment
        same = np.array([[a == b for b in ek] for a in rk], dtype=bool).reshape(n, m)
        okan = same & (np.abs(ran[:, None] - ean[None, :]) <= etl[None, :])
        okfd = same & (np.abs(rfd[:, None] - efd[None, :]) <= eal[None, :])
        ok, match = _perfect(okan & okfd, n, m)
        if ok:
            stats["assign"] = [int(c) for c in match]
            return None, {}, stats
        ok_an, m_an = _perfect(okan, n, m)
        ok_fd, m_fd = _perfect(okfd, n, m)

    def worst(mt, okmat, val, ref, tolv, what):
        # first report without any compatible record; described against the canonical record of its entry
        bad = [i for i in range(n) if not okmat[i].any()]
        if not bad:
            bad = [i for i in range(n) if mt is None or mt[i] < 0] or [0]
        i = bad[0]
        cand = [j for j in range(m) if same[i, j]]
        j = min(cand, key=lambda q: abs(val[i] - ref[q]))
        e = recs[j]
        return i, j, {"report_index": i, "x0": e["x0"], "input": e["inp"], "entry": e["entry"], "direction": e["dir"],
                      "output": e["out"], "reported_" + what: float(val[i]), "nearest_expected": float(ref[j]),
                      "tolerance": float(tolv[j]), "reported_an": float(ran[i]), "reported_fd": float(rfd[i]),
                      "expected_an": e["an"], "expected_fd": e["fd"], "h": e["h"],
                      "reports_without_match": len(bad)}
    if not ok_an:
        i, j, w = worst(m_an, okan, ran, ean, etl, "analytical")
        stats["bad_report"], stats["bad_record"] = i, j
        return "analytical/not-the-backpropagated-sensitivity-for-the-seed-used", w, stats
    if not ok_fd:
        i, j, w = worst(m_fd, okfd, rfd, efd, eal, "numerical")
        stats["bad_report"], stats["bad_record"] = i, j
        # reports left over by a maximum matching on (entry, numerical value)
        stats["unmatched_fd_reports"] = [q for q in range(n) if m_fd is None or m_fd[q] < 0]
        return "numerical/not-the-directional-derivative-within-O(dx)", w, stats
    i, j, w = worst(match, okan & okfd, rfd, efd, eal, "numerical")
    return "reports/analytical-and-numerical-values-of-different-entries-paired", w, stats
