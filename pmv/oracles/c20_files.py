"""Independent readers for the two file formats judged by C20 (no pyMOTO import).

* ``read_vti``  – VTK XML image data written with inline base64 ("binary") arrays, following the
  VTK file-format document: <VTKFile type byte_order header_type><ImageData WholeExtent Origin
  Spacing><Piece Extent><PointData|CellData><DataArray type Name NumberOfComponents format>.
  An inline binary block is  base64(header) || base64(payload)  with a header of one
  ``header_type`` integer holding the payload length in bytes.
* ``expected_arrays`` – what a set of input vectors has to look like in such a file according to the
  statement of C20 (plain numpy index arithmetic).
* ``split_outside_brackets`` / ``parse_label`` – tokenising the header line of a text log.

Every deviation is raised as ``core.Violation`` with a mechanism name that describes the deviation."""
import base64
import binascii
import re
import struct
import xml.etree.ElementTree as ET

import numpy as np

from ..core import Violation, require

_WS = re.compile(rb"\s+")


# ------------------------------------------------------------------------------------------ VTI reader
def _numbers(txt, conv, n, mech, **w):
    try:
        vals = [conv(t) for t in (txt or "").split()]
    except ValueError:
        raise Violation(mech, value=txt, **w)
    require(len(vals) == n, mech, value=txt, **w)
    return vals


def read_vti(raw):
    """Parse the bytes of a .vti file.  Returns dict(lo, hi, origin, spacing, arrays) where arrays is a
    list of dict(section='PointData'|'CellData', name, ncomp, data=float32 ndarray, header, rawlen, enclen)."""
    try:
        root = ET.fromstring(raw)
    except ET.ParseError as e:
        raise Violation("vti/not-well-formed-xml", error=str(e), head=raw[:120].decode("latin1"))
    require(root.tag == "VTKFile", "vti/root-element-is-not-VTKFile", tag=root.tag)
    require(root.get("type") == "ImageData", "vti/file-type-is-not-ImageData", type=root.get("type"))
    border = root.get("byte_order")
    require(border in ("LittleEndian", "BigEndian"), "vti/byte_order-attribute-invalid", byte_order=border)
    bo = "<" if border == "LittleEndian" else ">"
    htype = root.get("header_type", "UInt32")
    require(htype in ("UInt32", "UInt64"), "vti/header_type-attribute-invalid", header_type=htype)
    hfmt, hbytes = (bo + "I", 4) if htype == "UInt32" else (bo + "Q", 8)
    require(root.get("compressor") is None, "vti/declares-a-compressor", compressor=root.get("compressor"))
    imgs = root.findall("ImageData")
    require(len(imgs) == 1, "vti/not-exactly-one-ImageData-element",
            children=[c.tag for c in root])
    img = imgs[0]
    ext = _numbers(img.get("WholeExtent"), int, 6, "vti/WholeExtent-is-not-six-integers")
    origin = _numbers(img.get("Origin"), float, 3, "vti/Origin-is-not-three-numbers")
    spacing = _numbers(img.get("Spacing"), float, 3, "vti/Spacing-is-not-three-numbers")
    pieces = img.findall("Piece")
    require(len(pieces) == 1, "vti/not-exactly-one-Piece", children=[c.tag for c in img])
    piece = pieces[0]
    pext = _numbers(piece.get("Extent"), int, 6, "vti/Piece-Extent-is-not-six-integers")
    require(pext == ext, "vti/Piece-Extent-differs-from-WholeExtent", piece=pext, whole=ext)
    arrays = []
    seen_sections = []
    for sec in piece:
        require(sec.tag in ("PointData", "CellData"), "vti/unexpected-element-in-Piece", tag=sec.tag)
        require(sec.tag not in seen_sections, "vti/section-repeated", tag=sec.tag)
        seen_sections.append(sec.tag)
        for da in sec:
            require(da.tag == "DataArray", "vti/unexpected-element-in-data-section", tag=da.tag)
            name = da.get("Name")
            require(name is not None, "vti/array-without-Name")
            require(da.get("type") == "Float32", "vti/array-type-is-not-Float32", name=name, type=da.get("type"))
            require(da.get("format") == "binary", "vti/array-format-is-not-binary", name=name, format=da.get("format"))
            try:
                ncomp = int(da.get("NumberOfComponents", "1"))
            except ValueError:
                raise Violation("vti/NumberOfComponents-is-not-an-integer", name=name, value=da.get("NumberOfComponents"))
            require(ncomp >= 1, "vti/NumberOfComponents-is-not-positive", name=name, value=ncomp)
            txt = _WS.sub(b"", (da.text or "").encode("ascii", "replace"))
            hchars = 4 * ((hbytes + 2) // 3)
            require(len(txt) >= hchars, "vti/array-block-shorter-than-its-length-header", name=name, chars=len(txt))
            try:
                header = struct.unpack(hfmt, base64.b64decode(txt[:hchars], validate=True))[0]
                payload = base64.b64decode(txt[hchars:], validate=True)
            except (binascii.Error, struct.error) as e:
                raise Violation("vti/array-block-is-not-valid-base64", name=name, error=str(e))
            require(len(payload) % 4 == 0, "vti/payload-is-not-a-whole-number-of-float32", name=name, nbytes=len(payload))
            arrays.append({"section": sec.tag, "name": name, "ncomp": ncomp,
                           "data": np.frombuffer(payload, dtype=bo + "f4"),
                           "header": int(header), "rawlen": len(payload), "enclen": len(txt) - hchars})
    return {"lo": ext[0::2], "hi": ext[1::2], "origin": origin, "spacing": spacing, "arrays": arrays,
            "byte_order": border, "header_type": htype}


# ------------------------------------------------------------------------------------------ VTI expectation
def pad2to3(v):
    """(x0,y0,x1,y1,…) -> (x0,y0,0,x1,y1,0,…)"""
    out = np.zeros(3 * (v.size // 2), dtype=np.float32)
    out[0::3] = v[0::2]
    out[1::3] = v[1::2]
    return out


def expected_arrays(tag, arr, kind, k, form, dim):
    """The arrays a vector must appear as.  kind 'c' (element data) / 'p' (nodal data), k components,
    form 'vec' | 'cols' (N,m) | 'rows' (m,N) | 'col1' (N,1) | 'row1' (1,N).
    Returns list of dict(index=None|i, section, alternatives=[(ncomp, float32 values), …])."""
    with np.errstate(all="ignore"):
        a32 = np.asarray(arr).astype(np.float32)
    if form == "vec":
        vecs = [a32]
    elif form in ("col1", "row1"):
        vecs = [a32.reshape(-1)]
    elif form == "cols":
        vecs = [a32[:, i] for i in range(a32.shape[1])]
    elif form == "rows":
        vecs = [a32[i, :] for i in range(a32.shape[0])]
    else:  # pragma: no cover
        raise ValueError(form)
    out = []
    for i, v in enumerate(vecs):
        v = np.ascontiguousarray(v)
        if k == 2 and kind == "p" and dim == 2:
            alts = [(3, pad2to3(v))]                      # stated: 2D vectors are padded to three
        elif k == 2:
            alts = [(2, v), (3, pad2to3(v))]              # not stated which: both describe the data correctly
        else:
            alts = [(k, v)]
        out.append({"index": i if len(vecs) > 1 else None, "section": "CellData" if kind == "c" else "PointData",
                    "alternatives": alts})
    return out


_IDX = re.compile(r"^(?:\((\d+)\)|_(\d+)|\[(\d+)\])$")


def match_name(name, tags):
    """Split an array name into (tag, index|None); the suffix of a block-vector member may be written
    as tag(i), tag_i or tag[i] with or without leading zeros.  Longest tag wins."""
    for tag in sorted(tags, key=len, reverse=True):
        if name == tag:
            return tag, None
        if name.startswith(tag):
            m = _IDX.match(name[len(tag):])
            if m:
                return tag, int(next(g for g in m.groups() if g is not None))
    return None, None


def same_float32(a, b):
    """Bitwise equality of two float32 arrays, except that any NaN equals any NaN."""
    if a.shape != b.shape:
        return False
    au = np.ascontiguousarray(a, dtype=np.float32).view(np.uint32)
    bu = np.ascontiguousarray(b, dtype=np.float32).view(np.uint32)
    ok = (au == bu) | (np.isnan(a) & np.isnan(b))
    return bool(np.all(ok))


# ------------------------------------------------------------------------------------------ text log
def split_outside_brackets(line, sep):
    """Split at ``sep`` except inside [...] or (...): 'a[0, 1],b' with ',' -> ['a[0, 1]', 'b']."""
    out, depth, cur, i, n = [], 0, [], 0, len(sep)
    while i < len(line):
        ch = line[i]
        if ch in "[(":
            depth += 1
        elif ch in "])":
            depth = max(depth - 1, 0)
        if depth == 0 and line.startswith(sep, i):
            out.append("".join(cur))
            cur = []
            i += n
            continue
        cur.append(ch)
        i += 1
    out.append("".join(cur))
    return out


_LAB = re.compile(r"^(.*?)\s*[\[\(]\s*(\d+(?:\s*[,; ]\s*\d+)*)\s*[\]\)]$")


def parse_label(label):
    """'tag[1, 2]' -> ('tag', (1, 2));  'tag' -> ('tag', None)."""
    m = _LAB.match(label.strip())
    if not m:
        return label.strip(), None
    return m.group(1), tuple(int(t) for t in re.split(r"[,; ]+", m.group(2).strip()))
