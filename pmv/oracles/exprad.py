"""Tiny expression generator with exact forward-mode evaluation (value and tangent), used as the independent
reference for MathGeneral: the same random tree is rendered (a) as the string handed to pyMOTO/sympy and
(b) as a numpy evaluation that propagates tangents by the chain rule written out here."""
import numpy as np


class Node:
    def __init__(self, op, *args, const=None, idx=None):
        self.op, self.args, self.const, self.idx = op, args, const, idx

    def render(self):
        o, a = self.op, self.args
        if o == "var":
            return f"inp{self.idx}"
        if o == "const":
            return repr(float(self.const))
        if o == "add":
            return f"({a[0].render()} + {a[1].render()})"
        if o == "sub":
            return f"({a[0].render()} - {a[1].render()})"
        if o == "mul":
            return f"({a[0].render()} * {a[1].render()})"
        if o == "pow":
            return f"({a[0].render()})^{int(self.const)}"
        if o in ("sin", "cos", "exp"):
            return f"{o}({a[0].render()})"
        if o == "logsq":
            return f"log(({a[0].render()})^2 + 1.5)"
        raise ValueError(o)

    def eval(self, xs, vs):
        """returns (value, tangent); vs[i] may be None (= zero direction)"""
        o, a = self.op, self.args
        if o == "var":
            x = xs[self.idx]
            v = vs[self.idx]
            return x, (np.zeros_like(np.asarray(x) * 1.0) if v is None else v)
        if o == "const":
            return self.const, 0.0
        if o in ("add", "sub"):
            (p, dp), (q, dq) = a[0].eval(xs, vs), a[1].eval(xs, vs)
            return (p + q, dp + dq) if o == "add" else (p - q, dp - dq)
        if o == "mul":
            (p, dp), (q, dq) = a[0].eval(xs, vs), a[1].eval(xs, vs)
            return p * q, dp * q + p * dq
        p, dp = a[0].eval(xs, vs)
        if o == "pow":
            k = int(self.const)
            return p ** k, k * p ** (k - 1) * dp
        if o == "sin":
            return np.sin(p), np.cos(p) * dp
        if o == "cos":
            return np.cos(p), -np.sin(p) * dp
        if o == "exp":
            return np.exp(p), np.exp(p) * dp
        if o == "logsq":
            return np.log(p * p + 1.5), 2 * p * dp / (p * p + 1.5)
        raise ValueError(o)

    def uses(self):
        if self.op == "var":
            return {self.idx}
        s = set()
        for a in self.args:
            s |= a.uses()
        return s


def random_tree(rng, nvar, depth, allow_log=True):
    if depth <= 0 or rng.random() < 0.15:
        if rng.random() < 0.8:
            return Node("var", idx=int(rng.integers(nvar)))
        return Node("const", const=float(np.round(rng.uniform(-2, 2), 3)))
    ops = ["add", "sub", "mul", "mul", "pow", "sin", "cos", "exp"] + (["logsq"] if allow_log else [])
    o = str(rng.choice(ops))
    if o in ("add", "sub", "mul"):
        return Node(o, random_tree(rng, nvar, depth - 1, allow_log), random_tree(rng, nvar, depth - 1, allow_log))
    if o == "pow":
        return Node(o, random_tree(rng, nvar, depth - 1, allow_log), const=int(rng.integers(2, 4)))
    if o == "exp":   # keep the argument small
        return Node("exp", Node("mul", Node("const", const=0.3), random_tree(rng, nvar, depth - 1, allow_log)))
    return Node(o, random_tree(rng, nvar, depth - 1, allow_log))


def tree_using_all(rng, nvar, depth, allow_log=True):
    for _ in range(100):
        t = random_tree(rng, nvar, depth, allow_log)
        if t.uses() == set(range(nvar)):
            return t
    # force every variable to appear
    t = Node("var", idx=0)
    for i in range(1, nvar):
        t = Node("mul" if i % 2 else "add", t, Node("var", idx=i))
    return Node("add", t, Node("sin", Node("var", idx=0)))
