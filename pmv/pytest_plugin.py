"""pytest plugin: runs the repository's own test-suite as a workload under the online monitors (module purity, aliasing,
solver residual, DyadCarrier and LDAWrapper invariants).  Loaded with `-p pmv.pytest_plugin`; the verdict data are written to the
file named by PMV_PLUGIN_OUT at session end.  Test outcomes themselves are not judged (the baseline has failing tests)."""
import json
import os
import warnings

import numpy as np

from . import monitors

np.seterr(all="ignore")
monitors.install(["module", "signal", "dyad"])   # the clauses of C04 (solver residuals are C05's business: the tests perturb
# matrices out of their class on purpose, which the cached solver choice cannot follow)


def pytest_runtest_setup(item):
    monitors.STATE.counters["tests_started"] += 1
    monitors.STATE.current_test = item.nodeid


_seen = []
_orig_note = monitors.STATE.note


def _note(mech, **detail):
    if len(_seen) < 200:
        _seen.append([mech, dict(detail, test=getattr(monitors.STATE, "current_test", "?"))])
    _orig_note(mech, **detail)


monitors.STATE.note = _note


def pytest_sessionfinish(session, exitstatus):
    out = os.environ.get("PMV_PLUGIN_OUT")
    if out:
        with open(out, "w") as f:
            json.dump({"violations": monitors.jsonable(_seen), "counters": dict(monitors.STATE.counters)}, f)
