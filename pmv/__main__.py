"""Runner:  python -m pmv Cxx [--tier quick|thorough] [--seed N] [--shards N] [--replay file]

Starts the shards (one subprocess each, with a wall-clock watchdog), aggregates their event
logs offline, applies known_findings.json, writes evidence/Cxx.json and sets the exit code:
0 = held on everything observed (KNOWN-FINDING lines allowed), 1 = VIOLATION not listed,
2 = inconclusive (deciding monitor below its floor, watchdog, crashed shard)."""
import argparse
import collections
import json
import os
import re
import shutil
import subprocess
import sys
import time

HERE = os.path.dirname(os.path.dirname(os.path.abspath(__file__)))


def slug(s):
    return re.sub(r"[^A-Za-z0-9_.-]+", "_", s)[:80]


def load_known():
    p = os.path.join(HERE, "known_findings.json")
    if not os.path.exists(p):
        return []
    with open(p) as f:
        return json.load(f).get("findings", [])


def replay(pid, path, tier, seed):
    import warnings
    import numpy as np
    np.seterr(all="ignore")
    warnings.simplefilter("ignore")
    from . import shard, monitors
    mod = shard.load_prop(pid)
    import pymoto  # noqa: F401
    monitors.install(getattr(mod, "MONITORS", []))
    with open(path) as f:
        rec = json.load(f)
    case = rec["case"]
    print(f"replaying {pid} case {json.dumps(case)[:400]}")
    ev = shard.run_one(mod, case, rec.get("tier", tier), rec.get("seed", seed), verbose=True)
    print(json.dumps({k: ev[k] for k in ("verdict", "mechs", "obs") if k in ev}, indent=1)[:6000])
    if ev["verdict"] == "violated":
        print(f"VIOLATION property={pid} replay={os.path.abspath(path)}")
        return 1
    return 0 if ev["verdict"] in ("held", "skipped") else 2


def main(argv=None):
    ap = argparse.ArgumentParser()
    ap.add_argument("prop")
    ap.add_argument("--tier", default=os.environ.get("VERIF_TIER", "quick"), choices=["quick", "thorough"])
    ap.add_argument("--seed", type=int, default=int(os.environ.get("VERIF_SEED", "0")))
    ap.add_argument("--shards", type=int, default=0)
    ap.add_argument("--replay", default=None)
    ap.add_argument("--keep", action="store_true")
    a = ap.parse_args(argv)
    pid = a.prop.upper()
    if a.replay:
        return replay(pid, a.replay, a.tier, a.seed)

    t0 = time.time()
    from . import shard
    mod = shard.load_prop(pid)
    ncpu = os.cpu_count() or 4
    nsh = a.shards or min(16, ncpu, int(getattr(mod, "MAX_SHARDS", 16)))
    rundir = os.path.join(HERE, ".run", f"{pid}_{a.tier}_{a.seed}_{os.getpid()}")
    os.makedirs(rundir, exist_ok=True)
    tmo = getattr(mod, "TIMEOUT_SHARD", {"quick": 900, "thorough": 5400})[a.tier]
    procs = []
    for i in range(nsh):
        out = os.path.join(rundir, f"shard{i}.jsonl")
        err = open(os.path.join(rundir, f"shard{i}.err"), "w")
        p = subprocess.Popen([sys.executable, os.path.join(HERE, "pmv", "shard_entry.py"), pid, "--tier", a.tier, "--seed", str(a.seed),
                              "--index", str(i), "--nshards", str(nsh), "--out", out],
                             cwd=HERE, stdout=err, stderr=subprocess.STDOUT)
        procs.append((i, p, out, err))
    shard_problems = []
    deadline = time.time() + tmo
    for i, p, out, err in procs:
        try:
            p.wait(timeout=max(1.0, deadline - time.time()))
        except subprocess.TimeoutExpired:
            p.kill()
            p.wait()
            shard_problems.append(f"shard {i}: wall-clock watchdog ({tmo}s)")
        err.close()

    events, mon_counters, coverage, pymoto_paths = [], collections.Counter(), collections.Counter(), set()
    for i, p, out, err in procs:
        done = False
        if os.path.exists(out):
            with open(out) as f:
                for line in f:
                    try:
                        r = json.loads(line)
                    except json.JSONDecodeError:
                        continue
                    if "shard_done" in r:
                        done = True
                        mon_counters.update(r["monitor_counters"])
                        coverage.update(r["coverage"])
                    elif "shard_start" in r:
                        pymoto_paths.add(r["pymoto"])
                    else:
                        events.append(r)
        if not done and not any(s.startswith(f"shard {i}:") for s in shard_problems):
            tail = ""
            try:
                with open(os.path.join(rundir, f"shard{i}.err")) as f:
                    tail = f.read()[-800:]
            except OSError:
                pass
            shard_problems.append(f"shard {i}: exited with status {p.returncode} before finishing: {tail}")
    events.sort(key=lambda e: e.get("i", 0))

    # ---------------------------------------------------------------- aggregate
    counters = collections.Counter()
    verdicts = collections.Counter()
    keys = set()
    reasons = collections.Counter()
    by_mech = collections.OrderedDict()
    samples = []
    for e in events:
        verdicts[e["verdict"]] += 1
        counters.update(e.get("counters", {}))
        if e["verdict"] == "held" and e.get("nontrivial"):
            keys.add(e.get("key") or json.dumps(e["case"], sort_keys=True))
            if len(samples) < 4:
                samples.append({"case": e["case"], "observed": e.get("obs", {}), "verdict": "held"})
        if e["verdict"] in ("inconclusive", "skipped"):
            reasons[f'{e["verdict"]}: {e.get("reason", "")}'] += 1
        if e["verdict"] == "violated":
            for m, d in e["mechs"]:
                by_mech.setdefault(m, []).append((e, d))
    known = [k for k in load_known() if k.get("property") == pid]
    open_keys = {k["key"]: k for k in known if k.get("status") == "open"}
    out_lines, new_viol, known_hit = [], [], []
    scratch = os.path.realpath(os.environ.get("PMV_REPO", "/repo")) != "/repo"
    repdir = os.path.join(HERE, ".run", "scratch_replays", pid) if scratch else os.path.join(HERE, "replays", pid)
    os.makedirs(repdir, exist_ok=True)
    for m, lst in by_mech.items():
        e, d = lst[0]
        if m in open_keys:
            known_hit.append(m)
            out_lines.append(f"KNOWN-FINDING: property={pid} {m}: {open_keys[m].get('what', '')} ({len(lst)} cases)")
            continue
        path = os.path.join(repdir, slug(m) + ".json")
        with open(path, "w") as f:
            json.dump({"property": pid, "mechanism": m, "tier": a.tier, "seed": a.seed, "case": e["case"],
                       "detail": d, "cases_with_this_mechanism": len(lst)}, f, indent=1)
        new_viol.append(m)
        out_lines.append(f"VIOLATION property={pid} replay={path}")
        out_lines.append(f"  mechanism: {m}  ({len(lst)} cases)  witness: {json.dumps(d)[:600]}")
    for e_key in open_keys:
        if e_key not in known_hit:
            out_lines.append(f"note: listed finding {pid}/{e_key} was not observed in this run")

    floors = getattr(mod, "FLOORS", {}).get(a.tier, {})
    allc = collections.Counter(counters)
    allc.update(mon_counters)
    allc["cases_held"] = verdicts["held"]
    allc["distinct_nontrivial"] = len(keys)
    below = {k: (allc.get(k, 0), v) for k, v in floors.items() if allc.get(k, 0) < v}
    inconclusive = bool(shard_problems) or bool(below) or verdicts["held"] == 0

    wall = time.time() - t0
    ev = {
        "property_id": pid, "tier": a.tier, "seed": a.seed,
        "level": getattr(mod, "LEVEL", "exploration"),
        "coverage": {
            "evaluations": len(events),
            "distinct_nontrivial": len(keys),
            "rule": getattr(mod, "RULE", ""),
            "samples": samples + [{"case": lst[0][0]["case"], "mechanism": m, "detail": lst[0][1], "verdict": "violated"}
                                  for m, lst in list(by_mech.items())[:4]],
            "verdicts": dict(verdicts),
            "inconclusive_or_skipped_reasons": dict(reasons),
            "driver_counters": {k: v for k, v in sorted(counters.items()) if not k.startswith("warning:")},
            "monitor_counters": dict(sorted(mon_counters.items())),
            "floors": floors, "below_floor": {k: list(v) for k, v in below.items()},
            "warnings_observed": {k[8:]: v for k, v in sorted(counters.items()) if k.startswith("warning:")},
            "repo_functions_executed": len(coverage),
            "repo_functions_top (counts capped at 200 per shard)": dict(sorted(coverage.items(), key=lambda kv: -kv[1])[:40]),
            "repo_functions_all": sorted(coverage),
            "anchored_functions_executed": {k: v for k, v in sorted(coverage.items())
                                            if any(k.split(":")[0].endswith(a_) for a_ in getattr(mod, "ANCHORS", []))},
            "known_findings_observed": known_hit,
            "violations_by_mechanism": {m: len(lst) for m, lst in by_mech.items()},
            "shards": nsh, "shard_problems": shard_problems,
            "pymoto_imported_from": sorted(pymoto_paths),
            "exhaustive": bool(getattr(mod, "EXHAUSTIVE", {}).get(a.tier, False)),
            "explanation": getattr(mod, "EXPLANATION", ""),
            "unreachable_components": getattr(mod, "UNREACHABLE", []),
        },
        "assumptions": getattr(mod, "ASSUMPTIONS", []),
        "wall_s": round(wall, 2),
        "violations": len(new_viol),
    }
    # developer runs against a scratch copy (PMV_REPO set) never touch the registered evidence
    evdir = os.path.join(HERE, ".run", "scratch_evidence") if scratch else os.path.join(HERE, "evidence")
    os.makedirs(evdir, exist_ok=True)
    with open(os.path.join(evdir, f"{pid}.json"), "w") as f:
        json.dump(ev, f, indent=1)
    if not a.keep:
        shutil.rmtree(rundir, ignore_errors=True)

    print(f"[{pid} {a.tier} seed={a.seed}] {len(events)} cases in {wall:.1f}s on {nsh} shards: "
          f"{dict(verdicts)}; distinct non-trivial {len(keys)}")
    for line in out_lines:
        print(line)
    if new_viol:
        return 1
    if inconclusive:
        for s in shard_problems:
            print("INCONCLUSIVE", s[:1000])
        for k, (got, want) in below.items():
            print(f"INCONCLUSIVE property={pid} counter {k}={got} below floor {want}")
        if verdicts["held"] == 0:
            print(f"INCONCLUSIVE property={pid} no case was decided")
        return 2
    return 0


if __name__ == "__main__":
    sys.exit(main())
