"""Runtime monitors attached from the outside to the *real* pyMOTO classes.

Every monitor only observes: it never changes arguments, results or control flow of the
monitored call.  A broken clause is recorded in ``STATE.violations`` (mechanism + witness)
and the case runner turns it into the verdict of the case that was executing.  Counters go
to the evidence; a deciding monitor that was never reached makes the check inconclusive.

No source hooks are needed: all observation points are public methods of public classes.
"""
import collections
import sys
import warnings

import numpy as np
import scipy.sparse as sps

from .core import digest, all_finite, is_dyad, todense, jsonable


class _State:
    def __init__(self):
        self.violations = []          # (mech, detail)
        self.counters = collections.Counter()
        self.events = None            # optional event log (list) for offline checkers
        self.enabled = True
        self.installed = set()
        self.cover_calls = collections.Counter()

    def note(self, mech, **detail):
        self.counters["monitor_violations"] += 1
        if len(self.violations) < 50:
            self.violations.append((mech, jsonable(detail)))

    def drain(self):
        v, self.violations = self.violations, []
        return v


STATE = _State()


def _sigs(m):
    return list(m.sig_in) + list(m.sig_out)


def _safe(fn, s):
    try:
        return fn(s)
    except Exception:
        return ("unreadable",)


def _state_dig(s):
    return _safe(lambda q: digest(q.state), s)


def _sens_dig(s):
    return _safe(lambda q: digest(q.sensitivity), s)


def _is_zero_or_none(v):
    if v is None:
        return True
    try:
        if is_dyad(v):
            return v.n_dyads == 0 or not np.any(v.todense())
        if sps.issparse(v):
            return v.nnz == 0 or not np.any(v.data)
        return not np.any(np.asarray(v))
    except Exception:
        return False


# --------------------------------------------------------------------------- ModuleMonitor
def install_module_monitor():
    """Purity clauses of C03/C04 on every Module.response/sensitivity/reset (base-class methods;
    Network overrides them and calls its members, which are therefore seen individually)."""
    if "module" in STATE.installed:
        return
    STATE.installed.add("module")
    from pymoto.core_objects import Module
    o_resp, o_sens, o_reset = Module.response, Module.sensitivity, Module.reset

    def response(self):
        if not STATE.enabled:
            return o_resp(self)
        name = type(self).__name__
        ins = [_state_dig(s) for s in self.sig_in]
        sens = [_sens_dig(s) for s in _sigs(self)]
        if STATE.events is not None:
            STATE.events.append(("response", id(self), name))
        r = o_resp(self)
        STATE.counters["mon_response"] += 1
        if ins != [_state_dig(s) for s in self.sig_in]:
            k = [i for i, (a, s) in enumerate(zip(ins, self.sig_in)) if a != _state_dig(s)]
            STATE.note("response-mutates-input-state", module=name, inputs=k)
        if sens != [_sens_dig(s) for s in _sigs(self)]:
            STATE.note("response-mutates-sensitivity", module=name)
        return r

    def sensitivity(self):
        if not STATE.enabled:
            return o_sens(self)
        name = type(self).__name__
        st = [_state_dig(s) for s in _sigs(self)]
        seeded = any(_safe(lambda q: q.sensitivity is not None, s) is True for s in self.sig_out)
        before = [_sens_dig(s) for s in _sigs(self)] if not seeded else None
        if STATE.events is not None:
            STATE.events.append(("sensitivity", id(self), name, seeded))
        r = o_sens(self)
        STATE.counters["mon_sensitivity"] += 1
        if st != [_state_dig(s) for s in _sigs(self)]:
            STATE.note("sensitivity-mutates-state", module=name)
        if not seeded and len(self.sig_out) > 0:
            STATE.counters["mon_unseeded_sensitivity"] += 1
            if before != [_sens_dig(s) for s in _sigs(self)]:
                STATE.note("unseeded-sensitivity-changes-something", module=name)
        return r

    def reset(self):
        if not STATE.enabled:
            return o_reset(self)
        name = type(self).__name__
        st = [_state_dig(s) for s in _sigs(self)]
        if STATE.events is not None:
            STATE.events.append(("reset", id(self), name))
        r = o_reset(self)
        STATE.counters["mon_reset"] += 1
        if st != [_state_dig(s) for s in _sigs(self)]:
            STATE.note("reset-mutates-state", module=name)
        left = [i for i, s in enumerate(_sigs(self)) if not _safe(lambda q: _is_zero_or_none(q.sensitivity), s) is True]
        if left:
            STATE.note("reset-leaves-sensitivity", module=name, signals=left)
        return r

    Module.response, Module.sensitivity, Module.reset = response, sensitivity, reset


# --------------------------------------------------------------------------- SignalShadow
def _shares(a, b):
    try:
        if a is None or b is None:
            return False
        if is_dyad(a) and is_dyad(b):
            return any(np.shares_memory(x, y) for x in a.u + a.v for y in b.u + b.v)
        if isinstance(a, np.ndarray) and isinstance(b, np.ndarray):
            return bool(np.shares_memory(a, b))
        if sps.issparse(a) and sps.issparse(b):
            return bool(np.shares_memory(a.data, b.data))
    except Exception:
        return False
    return False


def install_signal_monitor():
    """C18 aliasing clause: what a signal stores after add_sensitivity never shares memory with
    the argument (base signals only; a slice adds *into* its base array by design)."""
    if "signal" in STATE.installed:
        return
    STATE.installed.add("signal")
    from pymoto.core_objects import Signal
    o_add = Signal.add_sensitivity

    def add_sensitivity(self, ds):
        r = o_add(self, ds)
        if STATE.enabled and type(self) is Signal and ds is not None:
            STATE.counters["mon_add_sensitivity"] += 1
            if _shares(self.sensitivity, ds):
                STATE.note("add_sensitivity-aliases-argument", tag=getattr(self, "tag", ""))
        return r

    Signal.add_sensitivity = add_sensitivity


# --------------------------------------------------------------------------- SolverMonitor
_APPROX = ("Preconditioner", "DampedJacobi", "SOR", "ILU", "GeometricMultigrid")


def _allsubs(c):
    out = []
    for s in c.__subclasses__():
        out.append(s)
        out.extend(_allsubs(s))
    return out


def backward_error(M, x, b):
    """Normwise backward error  max_col ||Mx-b|| / (||M|| ||x|| + ||b||)."""
    Md = M
    r = Md @ x - b
    if sps.issparse(Md):
        nM = float(np.sqrt((abs(Md).power(2)).sum()))
    else:
        nM = float(np.linalg.norm(Md))
    rn = np.linalg.norm(r, axis=0)
    den = nM * np.linalg.norm(x, axis=0) + np.linalg.norm(b, axis=0)
    den = np.where(den == 0, 1.0, den)
    return float(np.max(rn / den))


def install_solver_monitor(direct_tol=1e-11):
    """C05 online clause: every answer of every exact solver solves the requested system of the
    matrix last given to update() (condition-independent normwise backward error for direct
    solvers, relative residual 10*tol for CG and the LDAS wrapper)."""
    if "solver" in STATE.installed:
        return
    STATE.installed.add("solver")
    from pymoto.solvers import LinearSolver

    def wrap(cls):
        if "update" in cls.__dict__:
            o_upd = cls.__dict__["update"]

            def update(self, A, _o=o_upd):
                try:
                    self._pmv_A = A.copy()
                except Exception:
                    self._pmv_A = None
                return _o(self, A)
            cls.update = update
        if "solve" in cls.__dict__ and cls.__name__ not in _APPROX:
            o_solve = cls.__dict__["solve"]

            def solve(self, rhs, x0=None, trans="N", _o=o_solve, _n=cls.__name__):
                x = _o(self, rhs, x0=x0, trans=trans)
                A = getattr(self, "_pmv_A", None)
                if not STATE.enabled or A is None:
                    return x
                try:
                    b = np.asarray(rhs)
                    if trans not in ("N", "T", "H") or not np.all(np.isfinite(b)) or b.size == 0:
                        return x
                    STATE.counters["mon_solve:" + _n] += 1
                    if np.shape(x) != np.shape(b):
                        STATE.note("solver-online/shape", solver=_n, trans=trans, got=np.shape(x), want=np.shape(b))
                        return x
                    M = {"N": A, "T": A.T, "H": A.conj().T}[trans]
                    nb = np.linalg.norm(b, axis=0)
                    if np.any(nb == 0):
                        STATE.counters["mon_solve_zero_rhs"] += 1
                        return x
                    if _n in ("CG", "LDAWrapper"):
                        tol = 10 * float(getattr(self, "tol", 1e-7))
                        res = float(np.max(np.linalg.norm(M @ x - b, axis=0) / nb))
                        lim = max(tol, 1e-9)
                        if x0 is not None and _n == "CG":
                            # an iterative solve cannot get below the rounding level of its first residual, eps*|A||x0| (a warm start
                            # orders of magnitude larger than the solution - floating point, not a defect of the solver)
                            try:
                                Ad = M.toarray() if sps.issparse(M) else np.asarray(M)
                                x0n = float(np.max(np.linalg.norm(np.asarray(x0).reshape(Ad.shape[0], -1), axis=0)))
                                lim = max(lim, 50 * np.finfo(float).eps * float(np.linalg.norm(Ad, 2)) * x0n / float(np.min(nb)))
                            except Exception:
                                pass
                        bad = not res <= lim
                    else:
                        res = backward_error(M, x, b)
                        bad = not res <= direct_tol
                    if bad:
                        STATE.note("solver-online/residual", solver=_n, trans=trans, residual=res,
                                   n=int(A.shape[0]), cplxA=bool(np.iscomplexobj(A)), cplxb=bool(np.iscomplexobj(b)))
                except Exception as e:  # the monitor must never disturb the program
                    STATE.counters["mon_solve_monitor_error:" + type(e).__name__] += 1
                return x
            cls.solve = solve

    for c in _allsubs(LinearSolver):
        wrap(c)


# --------------------------------------------------------------------------- icontract invariants
def install_dyad_invariant():
    """Class invariant of DyadCarrier (icontract, patched in place): equally many u and v vectors,
    each of the carrier's row/column length, dtype covering all stored vectors."""
    if "dyad" in STATE.installed:
        return
    STATE.installed.add("dyad")
    import icontract
    from pymoto.common.dyadcarrier import DyadCarrier

    def dyad_consistent(self):
        if not STATE.enabled:
            return True
        STATE.counters["inv_dyad"] += 1
        try:
            ok = len(self.u) == len(self.v)
            if ok and len(self.u) > 0:
                ok = all(np.ndim(u) == 1 and len(u) == self.ulen for u in self.u) and \
                    all(np.ndim(v) == 1 and len(v) == self.vlen for v in self.v)
                if ok:
                    rt = np.result_type(*[u.dtype for u in self.u], *[v.dtype for v in self.v])
                    ok = np.result_type(self.dtype, rt) == self.dtype
            if not ok:
                STATE.note("dyad-invariant-broken", nu=len(self.u), nv=len(self.v), shape=self.shape,
                           dtype=str(self.dtype))
        except Exception as e:
            STATE.counters["inv_dyad_error:" + type(e).__name__] += 1
        return True

    class _Never(Exception):
        pass

    icontract.invariant(dyad_consistent, error=_Never)(DyadCarrier)


def install_lda_invariant():
    """Class invariant of LDAWrapper (C06): the stored pairs are equally many per storage, each
    pair satisfies M[isel,isel] x = b for the *current* matrix and the b's are orthonormal."""
    if "lda" in STATE.installed:
        return
    STATE.installed.add("lda")
    import icontract
    from pymoto.solvers import LDAWrapper

    def database_consistent(self):
        if not STATE.enabled:
            return True
        try:
            A = getattr(self, "A", None)
            if A is None:
                return True
            STATE.counters["inv_lda"] += 1
            isel = self.nondiagonal_idx
            for name, M, xs, bs in (("N", A, self.x_stored, self.b_stored),
                                    ("H", A.conj().T, self.xadj_stored, self.badj_stored)):
                if len(xs) != len(bs):
                    STATE.note("lda-invariant/unequal-lengths", storage=name, nx=len(xs), nb=len(bs))
                    continue
                if len(xs) == 0:
                    continue
                STATE.counters["inv_lda_nonempty"] += 1
                Ms = M[isel, :][:, isel]
                X = np.stack(xs, axis=1)
                B = np.stack(bs, axis=1)
                if not (np.all(np.isfinite(X)) and np.all(np.isfinite(B))):
                    STATE.note("lda-invariant/nonfinite-entry", storage=name)
                    continue
                R = Ms @ X - B
                tol = 100 * max(float(getattr(self, "tol", 1e-7)), 1e-9)
                res = float(np.max(np.linalg.norm(R, axis=0)))  # b's are unit vectors
                if res > tol:
                    STATE.note("lda-invariant/stored-pair-not-a-solution", storage=name, residual=res, n=len(xs))
                G = B.conj().T @ B - np.eye(len(bs))
                if float(np.max(np.abs(G))) > 1e-6:
                    STATE.note("lda-invariant/basis-not-orthonormal", storage=name, dev=float(np.max(np.abs(G))))
        except Exception as e:
            STATE.counters["inv_lda_error:" + type(e).__name__] += 1
        return True

    class _Never(Exception):
        pass

    icontract.invariant(database_consistent, error=_Never)(LDAWrapper)


# --------------------------------------------------------------------------- coverage counter
_TOOL = None


def start_coverage(prefix):
    """sys.monitoring PY_START counter restricted to repository code objects (evidence only)."""
    global _TOOL
    if _TOOL is not None or not hasattr(sys, "monitoring"):
        return
    mon = sys.monitoring
    for tid in (mon.COVERAGE_ID, mon.PROFILER_ID, 4, 3):
        try:
            mon.use_tool_id(tid, "pmv")
            _TOOL = tid
            break
        except ValueError:
            continue
    if _TOOL is None:
        return
    plen = len(prefix)

    def on_start(code, off):
        fn = code.co_filename
        if not fn.startswith(prefix):
            return mon.DISABLE
        k = fn[plen:] + ":" + code.co_qualname
        STATE.cover_calls[k] += 1
        if STATE.cover_calls[k] >= 200:      # enough to show the function was exercised; stop paying for the event
            return mon.DISABLE

    mon.register_callback(_TOOL, mon.events.PY_START, on_start)
    mon.set_events(_TOOL, mon.events.PY_START)


INSTALLERS = {
    "module": install_module_monitor,
    "signal": install_signal_monitor,
    "solver": install_solver_monitor,
    "dyad": install_dyad_invariant,
    "lda": install_lda_invariant,
}


def install(names):
    for n in names:
        INSTALLERS[n]()
